// Package equivx replays (original, edited) program pairs through the real
// re-attach path (C15): start a pipestance with the original definitions,
// let that mrp go away, change the included definitions and re-attach with
// Runtime.ReattachToPipestance as a restarted mrp does.
package equivx

import (
	"bufio"
	"context"
	"encoding/json"
	"fmt"
	"os"
	"path"
	"path/filepath"
	"sort"
	"strings"
	"sync"
	"sync/atomic"

	"github.com/martian-lang/martian/martian/core"
	"github.com/martian-lang/martian/martian/syntax"
	"github.com/martian-lang/martian/martian/util"
)

type pair struct {
	Id     string            `json:"id"`
	FilesA map[string]string `json:"files_a"`
	FilesB map[string]string `json:"files_b"`
	InvA   string            `json:"inv_a"`
	InvB   string            `json:"inv_b"`
}

type result struct {
	Id            string `json:"id"`
	Invoke        string `json:"invoke"`     // "" or error starting the original
	Reattach      string `json:"reattach"`   // accepted | refused | error
	Detail        string `json:"detail"`     // error text
	CompilesB     bool   `json:"compiles_b"` // the edited program compiles
	EquivAB       string `json:"equiv_ab"`   // EquivalentCall(new, old): true | false | n/a
	EquivBA       string `json:"equiv_ba"`
	LockedRW      string `json:"locked_rw"`       // write attach while the first mrp holds the lock
	LockedRO      string `json:"locked_ro"`       // read-only attach meanwhile
	SecondHeld    string `json:"second_held"`     // write attach while the re-attached mrp holds the lock
	EditedRO      string `json:"edited_ro"`       // read-only attach with the edited definitions while the first mrp lives
	LockedAfterRO string `json:"locked_after_ro"` // write attach after that
	// what an accepted read-only instance did to the pipestance directory while it ran its
	// loop next to the owner: files that appeared or changed, jobs it handed to its job manager
	InspectorWrote []string `json:"inspector_wrote"`
}

// snapshot of a directory tree: path -> size and modification time
func snapshot(dir string) map[string]string {
	m := map[string]string{}
	filepath.Walk(dir, func(p string, info os.FileInfo, err error) error {
		if err == nil {
			m[p] = fmt.Sprintf("%d %d %v", info.Size(), info.ModTime().UnixNano(), info.Mode())
		}
		return nil
	})
	return m
}

type devNull struct{}

func (devNull) Write(b []byte) (int, error)       { return len(b), nil }
func (devNull) WriteString(s string) (int, error) { return len(s), nil }

func writeFiles(dir string, files map[string]string) {
	os.RemoveAll(dir)
	for name, text := range files {
		os.MkdirAll(path.Join(dir, path.Dir(name)), 0755)
		os.WriteFile(path.Join(dir, name), []byte(text), 0644)
	}
}

func classify(err error) (string, string) {
	if err == nil {
		return "accepted", ""
	}
	if _, ok := err.(*core.PipestanceInvocationError); ok {
		return "refused", err.Error()
	}
	t := err.Error()
	if strings.Contains(t, "lock") || strings.Contains(t, "Lock") {
		return "refused-locked", t
	}
	return "error", t
}

func compile(dir, inv string) (*syntax.Ast, error) {
	var p syntax.Parser
	_, _, ast, err := p.ParseSourceBytes([]byte(inv), path.Join(dir, "invocation.mro"), []string{dir}, false)
	return ast, err
}

func one(work string, pr *pair) result {
	res := result{Id: pr.Id}
	root, _ := os.MkdirTemp(work, "eq")
	defer os.RemoveAll(root)
	mroDir := path.Join(root, "mro")
	psdir := path.Join(root, "ps")
	ctx := context.Background()
	opts := core.DefaultRuntimeOptions()
	opts.VdrMode = core.VdrDisable
	newRt := func() *core.Runtime {
		rt, err := core.VerifNewRuntime(&opts, 4, 4, "/nonexistent/mrjob", "/nonexistent/adapters", func(*core.VerifJob) {})
		if err != nil {
			panic(err)
		}
		return rt
	}
	writeFiles(mroDir, pr.FilesA)
	invPath := path.Join(root, "invocation.mro")
	os.WriteFile(invPath, []byte(pr.InvA), 0644)
	ps, err := newRt().InvokePipeline(pr.InvA, invPath, "ps", psdir, []string{mroDir}, "v", map[string]string{}, nil)
	if err != nil {
		res.Invoke = err.Error()
		return res
	}
	// while the first mrp lives: nobody else may attach for writing
	if p2, err := newRt().ReattachToPipestance("ps", psdir, pr.InvA, invPath, []string{mroDir}, "v", map[string]string{}, true, false, ctx); err == nil {
		res.LockedRW = "accepted"
		p2.Unlock()
	} else {
		res.LockedRW, _ = classify(err)
		if res.LockedRW == "error" {
			res.LockedRW = "refused: " + firstLine(err.Error())
		}
	}
	var submitted int32
	roRt, err := core.VerifNewRuntime(&opts, 4, 4, "/nonexistent/mrjob", "/nonexistent/adapters", func(*core.VerifJob) { atomic.AddInt32(&submitted, 1) })
	if err != nil {
		panic(err)
	}
	if pro, err := roRt.ReattachToPipestance("ps", psdir, pr.InvA, invPath, []string{mroDir}, "v", map[string]string{}, true, true, ctx); err == nil {
		res.LockedRO = "accepted"
		// the inspector runs its loop (as mrp --inspect does) while the owner holds the
		// pipestance: it must not write anything
		before := snapshot(psdir)
		pro.LoadMetadata(ctx)
		for i := 0; i < 4; i++ {
			pro.RefreshState(ctx)
			pro.GetState(ctx)
			pro.CheckHeartbeats(ctx)
			pro.StepNodes(ctx)
		}
		after := snapshot(psdir)
		for p_, v := range after {
			if before[p_] != v && len(res.InspectorWrote) < 8 {
				res.InspectorWrote = append(res.InspectorWrote, strings.TrimPrefix(p_, psdir+"/"))
			}
		}
		sort.Strings(res.InspectorWrote)
		if n := atomic.LoadInt32(&submitted); n > 0 {
			res.InspectorWrote = append(res.InspectorWrote, fmt.Sprintf("%d job(s) handed to the job manager", n))
		}
	} else {
		res.LockedRO = "refused: " + firstLine(err.Error())
	}
	// somebody inspects the live pipestance with the edited definitions (read-only; refused if
	// the meaning changed); whatever the answer, the owner's lock must still keep writers out
	mroDirB := path.Join(root, "mroB")
	writeFiles(mroDirB, pr.FilesB)
	invPathB := path.Join(root, "invocationB.mro")
	os.WriteFile(invPathB, []byte(pr.InvB), 0644)
	if _, err := newRt().ReattachToPipestance("ps", psdir, pr.InvB, invPathB, []string{mroDirB}, "v", map[string]string{}, true, true, ctx); err == nil {
		res.EditedRO = "accepted"
	} else {
		res.EditedRO = "refused"
	}
	if p4, err := newRt().ReattachToPipestance("ps", psdir, pr.InvA, invPath, []string{mroDir}, "v", map[string]string{}, true, false, ctx); err == nil {
		res.LockedAfterRO = "accepted"
		p4.Unlock()
	} else {
		res.LockedAfterRO, _ = classify(err)
	}
	if res.LockedAfterRO == "accepted" {
		// (the intruder removed the lock when it left; the owner is still there)
		ps.Lock()
	}
	ps.Unlock() // the first mrp exits
	// the operator edits the definitions and starts mrp again
	astA, errA := compile(mroDir, pr.InvA)
	writeFiles(mroDir, pr.FilesB)
	os.WriteFile(invPath, []byte(pr.InvB), 0644)
	astB, errB := compile(mroDir, pr.InvB)
	res.CompilesB = errB == nil
	res.EquivAB, res.EquivBA = "n/a", "n/a"
	if errA == nil && errB == nil {
		res.EquivAB = fmt.Sprint(astB.EquivalentCall(astA))
		res.EquivBA = fmt.Sprint(astA.EquivalentCall(astB))
	}
	ps2, err := newRt().ReattachToPipestance("ps", psdir, pr.InvB, invPath, []string{mroDir}, "v", map[string]string{}, true, false, ctx)
	res.Reattach, res.Detail = classify(err)
	if err == nil {
		// the re-attached mrp holds the lock now
		if p3, err := newRt().ReattachToPipestance("ps", psdir, pr.InvB, invPath, []string{mroDir}, "v", map[string]string{}, true, false, ctx); err == nil {
			res.SecondHeld = "accepted"
			p3.Unlock()
		} else {
			res.SecondHeld = "refused"
		}
		ps2.Unlock()
	}
	return res
}

func firstLine(s string) string {
	if i := strings.IndexByte(s, '\n'); i >= 0 {
		s = s[:i]
	}
	if len(s) > 160 {
		s = s[:160]
	}
	return s
}

// Run: args = pairs.ndjson out.ndjson workdir
func Run(args []string) int {
	util.SetPrintLogger(devNull{})
	f, err := os.Open(args[0])
	if err != nil {
		fmt.Fprintln(os.Stderr, err)
		return 2
	}
	defer f.Close()
	out, _ := os.Create(args[1])
	defer out.Close()
	w := bufio.NewWriter(out)
	defer w.Flush()
	sc := bufio.NewScanner(f)
	sc.Buffer(make([]byte, 1<<20), 1<<26)
	for sc.Scan() {
		var pr pair
		if err := json.Unmarshal(sc.Bytes(), &pr); err != nil {
			fmt.Fprintln(os.Stderr, "pair:", err)
			return 2
		}
		r := func() (r result) {
			defer func() {
				if x := recover(); x != nil {
					r = result{Id: pr.Id, Reattach: "panic", Detail: fmt.Sprint(x)}
				}
			}()
			return one(args[2], &pr)
		}()
		b, _ := json.Marshal(r)
		w.Write(b)
		w.WriteByte('\n')
	}
	return 0
}

// LockRace: two mrps attach for writing at the same time; the first is held
// between its check for _lock and its write of _lock until the second has
// finished attaching.  args = out.json workdir
func LockRace(args []string) int {
	util.SetPrintLogger(devNull{})
	root, _ := os.MkdirTemp(args[1], "lock")
	defer os.RemoveAll(root)
	mroDir := path.Join(root, "mro")
	psdir := path.Join(root, "ps")
	src := "stage S(\n    in  int x,\n    out int y,\n    src exec \"s\",\n)\n\ncall S(\n    x = 1,\n)\n"
	os.MkdirAll(mroDir, 0755)
	invPath := path.Join(root, "invocation.mro")
	os.WriteFile(invPath, []byte(src), 0644)
	ctx := context.Background()
	opts := core.DefaultRuntimeOptions()
	opts.VdrMode = core.VdrDisable
	newRt := func() *core.Runtime {
		rt, err := core.VerifNewRuntime(&opts, 4, 4, "/nonexistent/mrjob", "/nonexistent/adapters", func(*core.VerifJob) {})
		if err != nil {
			panic(err)
		}
		return rt
	}
	ps, err := newRt().InvokePipeline(src, invPath, "ps", psdir, []string{mroDir}, "v", map[string]string{}, nil)
	if err != nil {
		fmt.Fprintln(os.Stderr, "invoke:", err)
		return 2
	}
	ps.Unlock()
	type outcome struct {
		Order  string   `json:"order"`
		Errors []string `json:"errors"`
		Held   int      `json:"held"`
	}
	var outs []outcome
	for _, order := range []string{"sequential", "race"} {
		reached := make(chan struct{}, 2)
		release := make(chan struct{})
		n := 0
		var mu sync.Mutex
		core.VerifHook = func(ev string, kv ...string) {
			if ev != "LockCheck" {
				return
			}
			mu.Lock()
			n++
			first := n == 1
			mu.Unlock()
			if first && order == "race" {
				reached <- struct{}{}
				<-release
			}
		}
		errs := make([]error, 2)
		pss := make([]*core.Pipestance, 2)
		done := make(chan int, 2)
		attach := func(i int) {
			pss[i], errs[i] = newRt().ReattachToPipestance("ps", psdir, src, invPath, []string{mroDir}, "v",
				map[string]string{}, true, false, ctx)
			done <- i
		}
		if order == "race" {
			go attach(0)
			<-reached // mrp 0 has seen that there is no _lock
			go attach(1)
			<-done // mrp 1 has attached (or was refused)
			close(release)
			<-done
		} else {
			attach(0)
			<-done
			attach(1)
			<-done
		}
		core.VerifHook = nil
		o := outcome{Order: order}
		for i := range errs {
			if errs[i] == nil {
				o.Held++
				o.Errors = append(o.Errors, "")
			} else {
				o.Errors = append(o.Errors, firstLine(errs[i].Error()))
			}
		}
		for i := range pss {
			if errs[i] == nil {
				pss[i].Unlock()
			}
		}
		os.Remove(path.Join(psdir, "_lock"))
		outs = append(outs, o)
	}
	b, _ := json.Marshal(outs)
	os.WriteFile(args[0], b, 0644)
	return 0
}

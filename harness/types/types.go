// Package types replays the rows of the MroTypes specification through the real
// syntax.Type implementations (IsValidJson, FilterJson, IsAssignableFrom).
package types

import (
	"bufio"
	"bytes"
	"encoding/json"
	"fmt"
	"os"
	"reflect"
	"sort"
	"strings"

	"github.com/martian-lang/martian/martian/core"
	"github.com/martian-lang/martian/martian/syntax"
	"verif/harness/run"
)

type T struct {
	B  string `json:"b"`
	A  int16  `json:"a"`
	M  int16  `json:"m"`
	Ia int16  `json:"ia"`
}

func (t T) String() string {
	s := t.B
	if t.M != 0 {
		s = "map<" + s + strings.Repeat("[]", int(t.Ia)) + ">"
	}
	return s + strings.Repeat("[]", int(t.A))
}

type ValRow struct {
	T       T               `json:"t"`
	V       json.RawMessage `json:"v"`
	Valid   bool            `json:"valid"`
	Accepts bool            `json:"accepts"`
	Fv      json.RawMessage `json:"fv"`
	Ferr    bool            `json:"ferr"`
	Fatal   bool            `json:"fatal"`
}

type AssignRow struct {
	T  T    `json:"t"`
	S  T    `json:"s"`
	Ok bool `json:"ok"`
}

type UnsoundRow struct {
	T T               `json:"t"`
	S T               `json:"s"`
	V json.RawMessage `json:"v"`
}

type Finding struct {
	Kind   string `json:"kind"`
	Type   string `json:"type"`
	Other  string `json:"other,omitempty"`
	Value  string `json:"value,omitempty"`
	Detail string `json:"detail"`
}

type Report struct {
	ValueRows   int       `json:"value_rows"`
	Renderings  int       `json:"renderings"`
	AssignRows  int       `json:"assign_rows"`
	SoundChecks int       `json:"sound_checks"`
	Violations  []Finding `json:"violations"`
	Predicted   []Finding `json:"predicted_unsound_confirmed"`
	Samples     []Finding `json:"samples"`
}

const src = `filetype txt;
struct S1(int a, string b,)
struct S2(int a,)
struct S3(S1 s, int[] xs,)
struct S4(float a, txt b,)
struct S5(map<int> per, int n,)
stage DUMMY(in S1 x1, in S2 x2, in S3 x3, in S4 x4, in S5 x5, out int y, src exec "x",)
`

var keyTokens = strings.NewReplacer("<BEL>", "\a", "<DEL>", "\x7f")

// concretise key tokens in an untagged value
func fixKeys(v interface{}) interface{} {
	switch x := v.(type) {
	case []interface{}:
		for i := range x {
			x[i] = fixKeys(x[i])
		}
		return x
	case map[string]interface{}:
		out := make(map[string]interface{}, len(x))
		for k, e := range x {
			out[keyTokens.Replace(k)] = fixKeys(e)
		}
		return out
	}
	return v
}

// render a tagged value as JSON bytes in one of several forms
func render(raw json.RawMessage, form int) []byte {
	var m map[string]json.RawMessage
	json.Unmarshal(raw, &m)
	var k string
	json.Unmarshal(m["k"], &k)
	sp := ""
	if form == 1 {
		sp = " "
	}
	switch k {
	case "null":
		return []byte("null")
	case "bool", "int":
		f := "b"
		if k == "int" {
			f = "i"
		}
		return bytes.TrimSpace(m[f])
	case "float":
		var s string
		json.Unmarshal(m["f"], &s)
		return []byte(s)
	case "big":
		var s string
		json.Unmarshal(m["s"], &s)
		return []byte(s)
	case "str":
		return bytes.TrimSpace(m["s"])
	case "arr":
		var a []json.RawMessage
		json.Unmarshal(m["a"], &a)
		var b bytes.Buffer
		b.WriteString("[" + sp)
		for i, x := range a {
			if i > 0 {
				b.WriteString("," + sp)
			}
			b.Write(render(x, form))
		}
		b.WriteString(sp + "]")
		return b.Bytes()
	case "obj":
		var o map[string]json.RawMessage
		json.Unmarshal(m["o"], &o)
		keys := make([]string, 0, len(o))
		for kk := range o {
			keys = append(keys, kk)
		}
		sort.Strings(keys)
		if form == 2 {
			for i, j := 0, len(keys)-1; i < j; i, j = i+1, j-1 {
				keys[i], keys[j] = keys[j], keys[i]
			}
		}
		var b bytes.Buffer
		b.WriteString("{" + sp)
		for i, kk := range keys {
			if i > 0 {
				b.WriteString("," + sp)
			}
			kb, _ := json.Marshal(keyTokens.Replace(kk))
			b.Write(kb)
			b.WriteString(":" + sp)
			b.Write(render(o[kk], form))
		}
		b.WriteString(sp + "}")
		return b.Bytes()
	}
	return []byte("null")
}

// canonNum: JSON text with object keys sorted and numbers kept digit for digit
func canonNum(b []byte) string {
	dec := json.NewDecoder(bytes.NewReader(b))
	dec.UseNumber()
	var v interface{}
	if err := dec.Decode(&v); err != nil {
		return "invalid: " + string(b)
	}
	out, _ := json.Marshal(v)
	return string(out)
}

func readRows(path string, each func([]byte) error) error {
	f, err := os.Open(path)
	if err != nil {
		return err
	}
	defer f.Close()
	sc := bufio.NewScanner(f)
	sc.Buffer(make([]byte, 1<<20), 1<<26)
	for sc.Scan() {
		if len(bytes.TrimSpace(sc.Bytes())) == 0 {
			continue
		}
		if err := each(sc.Bytes()); err != nil {
			return err
		}
	}
	return nil
}

// sameJSON: the same value, whatever the order of keys and the spacing (numbers digit by digit)
func sameJSON(a, b []byte) bool {
	dec := func(x []byte) (interface{}, error) {
		d := json.NewDecoder(bytes.NewReader(x))
		d.UseNumber()
		var v interface{}
		err := d.Decode(&v)
		return v, err
	}
	va, ea := dec(a)
	vb, eb := dec(b)
	return ea == nil && eb == nil && reflect.DeepEqual(va, vb)
}

// Main: vh types-replay <values.ndjson> <assign.ndjson> <unsound.ndjson>
type heldResult struct {
	out, saved []byte
	typ, input string
}

func Main(args []string) int {
	var held []heldResult
	_, _, ast, err := syntax.ParseSourceBytes([]byte(src), "types.mro", nil, false)
	if err != nil {
		fmt.Fprintln(os.Stderr, "compile:", err)
		return 2
	}
	lookup := &ast.TypeTable
	get := func(t T) syntax.Type {
		id := syntax.TypeId{Tname: t.B, ArrayDim: t.A}
		if t.M != 0 {
			id.MapDim = t.Ia + 1
		}
		return lookup.Get(id)
	}
	tid := func(t T) syntax.TypeId {
		id := syntax.TypeId{Tname: t.B, ArrayDim: t.A}
		if t.M != 0 {
			id.MapDim = t.Ia + 1
		}
		return id
	}
	// the outputs of a callable whose one output x has the given type, as the struct
	// type bindings are resolved against
	outsOf := func(t T) *syntax.StructType {
		m := &syntax.StructMember{Id: "x", Tname: tid(t)}
		return &syntax.StructType{Id: "PRODUCER", Members: []*syntax.StructMember{m}, Table: map[string]*syntax.StructMember{"x": m}}
	}
	allVals := map[string][]json.RawMessage{} // type -> every value of its rows (tagged)
	rep := &Report{Violations: []Finding{}, Predicted: []Finding{}, Samples: []Finding{}}
	viol := func(kind string, t, other T, val []byte, format string, a ...interface{}) {
		f := Finding{Kind: kind, Type: t.String(), Value: string(val), Detail: fmt.Sprintf(format, a...)}
		if other.B != "" {
			f.Other = other.String()
		}
		rep.Violations = append(rep.Violations, f)
	}
	clean := func(ty syntax.Type, b []byte) (bool, string) {
		var alarms strings.Builder
		err := ty.IsValidJson(b, &alarms, lookup)
		if err != nil {
			return false, err.Error()
		}
		return alarms.Len() == 0, alarms.String()
	}
	validVals := map[string][]json.RawMessage{} // type -> valid values (tagged)
	err = readRows(args[0], func(line []byte) error {
		var r ValRow
		if err := json.Unmarshal(line, &r); err != nil {
			return err
		}
		rep.ValueRows++
		ty := get(r.T)
		if ty == nil {
			return fmt.Errorf("no type %s", r.T)
		}
		if r.Valid {
			validVals[r.T.String()] = append(validVals[r.T.String()], r.V)
		}
		allVals[r.T.String()] = append(allVals[r.T.String()], r.V)
		pred, _ := run.Untag(r.Fv)
		pred = fixKeys(pred)
		for form := 0; form < 3; form++ {
			b := render(r.V, form)
			rep.Renderings++
			var al strings.Builder
			if hardErr := ty.IsValidJson(b, &al, lookup); (hardErr == nil) != r.Accepts {
				viol("validation", r.T, T{}, b, "IsValidJson returns error = %v, a value of this shape must %sbe an error", hardErr, map[bool]string{true: "not ", false: ""}[r.Accepts])
			}
			// the same verdict where mrp applies it: to the outputs a stage wrote and to the
			// arguments it is handed
			{
				id := tid(r.T)
				op := &syntax.OutParam{StructMember: syntax.StructMember{Id: "x", Tname: id}}
				ip := &syntax.InParam{Id: "x", Tname: id}
				am := core.LazyArgumentMap{"x": json.RawMessage(b)}
				oerr, _ := am.ValidateOutputs(lookup, &syntax.OutParams{List: []*syntax.OutParam{op}, Table: map[string]*syntax.OutParam{"x": op}})
				if (oerr == nil) != r.Accepts {
					viol("output-validation", r.T, T{}, b, "ValidateOutputs returns error = %v for an output x of this type, a value of this shape must %sbe an error", oerr, map[bool]string{true: "not ", false: ""}[r.Accepts])
				}
				ierr, _ := am.ValidateInputs(lookup, &syntax.InParams{List: []*syntax.InParam{ip}, Table: map[string]*syntax.InParam{"x": ip}})
				if (ierr == nil) != r.Accepts {
					viol("input-validation", r.T, T{}, b, "ValidateInputs returns error = %v for an argument x of this type, a value of this shape must %sbe an error", ierr, map[bool]string{true: "not ", false: ""}[r.Accepts])
				}
				rep.Renderings += 2
			}
			ok, why := clean(ty, b)
			if ok != r.Valid {
				viol("validation", r.T, T{}, b, "IsValidJson says clean=%v, the declared shape says %v (%s)", ok, r.Valid, why)
			}
			out, fatal, ferr := ty.FilterJson(b, lookup)
			// results are kept (mrp filters every binding of a stage and serialises them
			// afterwards): a later call must not change what an earlier one returned
			held = append(held, heldResult{out, append([]byte(nil), out...), r.T.String(), string(b)})
			if (ferr != nil) != r.Ferr {
				viol("filter", r.T, T{}, b, "FilterJson error = %v, expected an error: %v", ferr, r.Ferr)
			}
			if fatal != r.Fatal {
				viol("filter", r.T, T{}, b, "FilterJson fatal = %v (%v), expected %v", fatal, ferr, r.Fatal)
			}
			if r.Fatal {
				continue
			}
			var got interface{}
			if err := json.Unmarshal(out, &got); err != nil {
				viol("filter", r.T, T{}, b, "FilterJson returned invalid JSON %q: %v", string(out), err)
				continue
			}
			if !run.Same(pred, got, nil) {
				viol("filter", r.T, T{}, b, "FilterJson returned %s, expected %s", string(out), run.Canon(pred))
			} else if bytes.Contains(r.V, []byte(`"big"`)) {
				// integers beyond 2^53: every digit counts
				if a, e := canonNum(out), canonNum(render(r.Fv, 0)); a != e {
					viol("filter", r.T, T{}, b, "FilterJson returned %s, expected %s", a, e)
				}
			}
			out2, fatal2, ferr2 := ty.FilterJson(out, lookup)
			if fatal2 || (ferr2 != nil && !r.Ferr) || !bytes.Equal(bytes.TrimSpace(out2), bytes.TrimSpace(out)) {
				viol("idempotence", r.T, T{}, b, "filtering the filtered value %s gives %s (%v)", string(out), string(out2), ferr2)
			}
			if len(rep.Samples) < 5 && form == 1 && len(b) > 12 {
				rep.Samples = append(rep.Samples, Finding{Kind: "sample", Type: r.T.String(), Value: string(b),
					Detail: fmt.Sprintf("valid=%v filtered=%s", ok, string(out))})
			}
		}
		return nil
	})
	if err != nil {
		fmt.Fprintln(os.Stderr, err)
		return 2
	}
	for _, h := range held {
		if !bytes.Equal(h.out, h.saved) {
			viol("filter", T{B: h.typ}, T{}, []byte(h.input), "the value FilterJson returned (%s) was changed by later calls into %q", string(h.saved), string(h.out))
			break
		}
	}
	predicted := map[string]bool{}
	readRows(args[2], func(line []byte) error {
		var r UnsoundRow
		if err := json.Unmarshal(line, &r); err != nil {
			return err
		}
		predicted[r.T.String()+"|"+r.S.String()+"|"+string(render(r.V, 0))] = true
		return nil
	})
	err = readRows(args[1], func(line []byte) error {
		var r AssignRow
		if err := json.Unmarshal(line, &r); err != nil {
			return err
		}
		rep.AssignRows++
		tt, ss := get(r.T), get(r.S)
		got := tt.IsAssignableFrom(ss, lookup) == nil
		if got != r.Ok {
			viol("assignability", r.T, r.S, nil, "IsAssignableFrom says %v, the typing rules say %v", got, r.Ok)
		}
		if !got {
			return nil
		}
		// the binding of an output x of type s to a parameter of type t delivers what
		// filtering to t gives, and fails where filtering fails
		src := outsOf(r.S)
		for _, v := range allVals[r.S.String()] {
			b := render(v, 0)
			rep.SoundChecks++
			want, wfatal, _ := tt.FilterJson(b, lookup)
			m, perr := core.LazyArgumentMap{"x": json.RawMessage(b)}.Path("x", src, tt, lookup)
			if wfatal != (perr != nil) {
				viol("binding", r.T, r.S, b, "binding the output to a parameter of the type: error = %v, FilterJson fatal = %v", perr, wfatal)
			} else if !wfatal && m != nil {
				if got, err := m.MarshalJSON(); err != nil || !sameJSON(got, want) {
					viol("binding", r.T, r.S, b, "binding the output to a parameter of the type delivers %s, filtering gives %s (%v)", string(got), string(want), err)
				}
			}
		}
		// soundness: a value valid for s, filtered to t, is valid for t
		for _, v := range validVals[r.S.String()] {
			for form := 0; form < 2; form++ {
				b := render(v, form)
				rep.SoundChecks++
				out, ffatal, ferr := tt.FilterJson(b, lookup)
				ok, why := clean(tt, out)
				if ffatal || !ok {
					key := r.T.String() + "|" + r.S.String() + "|" + string(render(v, 0))
					f := Finding{Kind: "conversion", Type: r.T.String(), Other: r.S.String(), Value: string(b),
						Detail: fmt.Sprintf("valid for %s, but after filtering to %s it does not validate: %v %s", r.S, r.T, ferr, why)}
					if predicted[key] {
						if form == 0 {
							rep.Predicted = append(rep.Predicted, f)
						}
					} else {
						rep.Violations = append(rep.Violations, f)
					}
				}
			}
		}
		return nil
	})
	if err != nil {
		fmt.Fprintln(os.Stderr, err)
		return 2
	}
	b, _ := json.Marshal(rep)
	fmt.Println(string(b))
	if len(rep.Violations) > 0 {
		return 1
	}
	return 0
}

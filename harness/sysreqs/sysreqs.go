// Package sysreqs replays the table of spec/SysReqs.tla through the real
// LocalJobManager.GetSystemReqs and asks the real semaphores whether they would
// take the result.
package sysreqs

import (
	"bufio"
	"encoding/json"
	"fmt"
	"math"
	"os"

	"github.com/martian-lang/martian/martian/core"
)

type row struct {
	Cores   int   `json:"cores"`
	Mem     int   `json:"mem"`
	Tc      int   `json:"tc"`
	Mm      int   `json:"mm"`
	Threads int   `json:"threads"`
	MemLo   int64 `json:"memlo"`
	MemHi   int64 `json:"memhi"`
	VMem    int64 `json:"vmem"`
}

type finding struct {
	Kind   string `json:"kind"`
	Row    row    `json:"row"`
	Detail string `json:"detail"`
}

// Main: vh sysreqs-replay <rows.ndjson>
func Main(args []string) int {
	f, err := os.Open(args[0])
	if err != nil {
		fmt.Fprintln(os.Stderr, err)
		return 2
	}
	defer f.Close()
	mgrs := map[[2]int]*core.LocalJobManager{}
	var viols, drift []finding
	n := 0
	sc := bufio.NewScanner(f)
	for sc.Scan() {
		var r row
		if err := json.Unmarshal(sc.Bytes(), &r); err != nil {
			fmt.Fprintln(os.Stderr, "bad row", err)
			return 2
		}
		n++
		k := [2]int{r.Cores, r.Mem}
		m := mgrs[k]
		if m == nil {
			rt, err := core.VerifNewRuntime(&core.RuntimeOptions{}, r.Cores, r.Mem, "/nonexistent/mrjob", "/nonexistent/adapters", nil)
			if err != nil {
				fmt.Fprintln(os.Stderr, "runtime:", err)
				return 2
			}
			m = rt.LocalJobManager
			mgrs[k] = m
		}
		req := core.JobResources{Threads: float64(r.Tc) / 100, MemGB: float64(r.Mm) / 1024}
		res := m.GetSystemReqs(&req)
		tc := int(math.Round(res.Threads * 100))
		mm := int64(math.Round(res.MemGB * 1024))
		vm := int64(math.Round(res.VMemGB * 1024))
		cores, _, _, _ := m.VerifSemaphores()
		// property level: what the job will ask the semaphores for must not exceed the limits
		if tc > r.Cores*100 || tc <= 0 {
			viols = append(viols, finding{"threads-not-clamped", r, fmt.Sprintf("request of %g threads with %d cores is given %g threads", req.Threads, r.Cores, res.Threads)})
		} else if mm > int64(r.Mem)*1024 || mm <= 0 {
			viols = append(viols, finding{"memory-not-clamped", r, fmt.Sprintf("request of %g GB with %d GB is given %g GB", req.MemGB, r.Mem, res.MemGB)})
		} else if r.Tc > 0 && r.Tc <= r.Cores*100 && tc != r.Tc {
			viols = append(viols, finding{"fitting-thread-request-changed", r, fmt.Sprintf("request of %g threads with %d cores is given %g", req.Threads, r.Cores, res.Threads)})
		} else if r.Mm > 0 && r.Mm <= r.Mem*1024 && mm != int64(r.Mm) {
			viols = append(viols, finding{"fitting-memory-request-changed", r, fmt.Sprintf("request of %g GB with %d GB is given %g", req.MemGB, r.Mem, res.MemGB)})
		} else if r.Mm < 0 && mm < r.MemLo {
			viols = append(viols, finding{"adaptive-request-below-minimum", r, fmt.Sprintf("adaptive request of at least %d MB with %d GB is given %d MB", -r.Mm, r.Mem, mm)})
		}
		// the (idle) thread semaphore refuses outright what exceeds its maximum
		if tc > 0 {
			if err := cores.Acquire(int64(tc)); err != nil {
				viols = append(viols, finding{"semaphore-refuses", r, fmt.Sprintf("given %d centi-cores: %v", tc, err)})
			} else {
				cores.Release(int64(tc))
			}
		}
		// mechanism level: the model's exact values
		if tc != r.Threads || mm < r.MemLo || mm > r.MemHi || (r.VMem >= 0 && vm != r.VMem) {
			if len(drift) < 20 {
				drift = append(drift, finding{"differs-from-model", r, fmt.Sprintf("real %d centi-cores %d MB vmem %d MB", tc, mm, vm)})
			}
		}
	}
	b, _ := json.Marshal(map[string]interface{}{"rows": n, "violations": viols, "drift": drift})
	fmt.Println(string(b))
	return 0
}

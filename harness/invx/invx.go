// Package invx replays the rows of spec/Invoke.tla through the real conversion
// functions between invocation data and MRO call text (C16).
package invx

import (
	"bufio"
	"bytes"
	"encoding/json"
	"fmt"
	"os"
	"path"
	"regexp"
	"sort"
	"strings"

	"github.com/martian-lang/martian/martian/core"
	"github.com/martian-lang/martian/martian/syntax"
	"github.com/martian-lang/martian/martian/util"
	"verif/harness/absast"
)

type row struct {
	Id    string            `json:"id"`
	Src   string            `json:"src"`   // declarations + the stage
	Args  map[string]string `json:"args"`  // parameter -> JSON text
	Split []string          `json:"split"` // parameters to map over
	Call  json.RawMessage   `json:"call"`  // expected bindings (Invoke.tla ToCall)
	Names []string          `json:"names"` // parameters in declaration order
}

type Violation struct {
	Id     string `json:"id"`
	Kind   string `json:"kind"`
	Detail string `json:"detail"`
	Text   string `json:"text"`
}

var emptySplitRe = regexp.MustCompile(`= split (null|\[\]|\{\}),`)

type devNull struct{}

func (devNull) Write(b []byte) (int, error)       { return len(b), nil }
func (devNull) WriteString(s string) (int, error) { return len(s), nil }

// canonical JSON with numbers kept as written
func canonJSON(b []byte) (string, error) {
	dec := json.NewDecoder(bytes.NewReader(b))
	dec.UseNumber()
	var v interface{}
	if err := dec.Decode(&v); err != nil {
		return "", err
	}
	return canonVal(v), nil
}

func canonVal(v interface{}) string {
	switch x := v.(type) {
	case nil:
		return "null"
	case json.Number:
		return normNum(string(x))
	case []interface{}:
		parts := make([]string, len(x))
		for i, e := range x {
			parts[i] = canonVal(e)
		}
		return "[" + strings.Join(parts, ",") + "]"
	case map[string]interface{}:
		keys := make([]string, 0, len(x))
		for k := range x {
			keys = append(keys, k)
		}
		sort.Strings(keys)
		parts := make([]string, len(keys))
		for i, k := range keys {
			kb, _ := json.Marshal(k)
			parts[i] = string(kb) + ":" + canonVal(x[k])
		}
		return "{" + strings.Join(parts, ",") + "}"
	default:
		b, _ := json.Marshal(x)
		return string(b)
	}
}

// numbers are equal if they denote the same value: compare via big-float text
func normNum(s string) string {
	if !strings.ContainsAny(s, ".eE") {
		return s
	}
	var f float64
	fmt.Sscanf(s, "%g", &f)
	if f == float64(int64(f)) && f < 1e15 && f > -1e15 {
		return fmt.Sprintf("%d", int64(f))
	}
	return fmt.Sprintf("%g", f)
}

// expected bindings of Invoke.tla -> the shape absast.Exp produces
func expExp(raw json.RawMessage) interface{} {
	var m map[string]json.RawMessage
	if json.Unmarshal(raw, &m) != nil {
		return nil
	}
	var k string
	json.Unmarshal(m["k"], &k)
	switch k {
	case "lit":
		var v map[string]interface{}
		dec := json.NewDecoder(bytes.NewReader(m["v"]))
		dec.UseNumber()
		dec.Decode(&v)
		switch v["k"] {
		case "int":
			return absast.M{"k": "lit", "v": absast.M{"k": "int", "i": fmt.Sprint(v["i"])}}
		case "big":
			return absast.M{"k": "lit", "v": absast.M{"k": "int", "i": fmt.Sprint(v["s"])}}
		case "float":
			var f float64
			fmt.Sscanf(fmt.Sprint(v["f"]), "%g", &f)
			return absast.Exp(&syntax.FloatExp{Value: f})
		case "str":
			return absast.M{"k": "lit", "v": absast.M{"k": "str", "s": v["s"]}}
		case "bool":
			return absast.M{"k": "lit", "v": absast.M{"k": "bool", "b": v["b"]}}
		default:
			return absast.M{"k": "lit", "v": absast.M{"k": "null"}}
		}
	case "arrx":
		var es []json.RawMessage
		json.Unmarshal(m["es"], &es)
		out := make([]interface{}, len(es))
		for i, e := range es {
			out[i] = expExp(e)
		}
		return absast.M{"k": "arrx", "es": out}
	case "objx":
		var kind string
		json.Unmarshal(m["kind"], &kind)
		var fs map[string]json.RawMessage
		json.Unmarshal(m["fs"], &fs) // an empty function is written as []
		keys := make([]string, 0, len(fs))
		for k := range fs {
			keys = append(keys, k)
		}
		sort.Strings(keys)
		out := make([]interface{}, len(keys))
		for i, k := range keys {
			out[i] = absast.M{"n": k, "e": expExp(fs[k])}
		}
		return absast.M{"k": "objx", "kind": kind, "fs": out}
	case "split":
		return absast.M{"k": "split", "e": expExp(m["e"])}
	}
	return nil
}

func js(v interface{}) string {
	b, _ := json.Marshal(v)
	return string(b)
}

// Run: args = rows.ndjson out.json workdir
func Run(args []string) int {
	util.SetPrintLogger(devNull{})
	f, err := os.Open(args[0])
	if err != nil {
		fmt.Fprintln(os.Stderr, err)
		return 2
	}
	defer f.Close()
	sc := bufio.NewScanner(f)
	sc.Buffer(make([]byte, 1<<20), 1<<26)
	var viols []Violation
	n := 0
	counts := map[string]int{}
	var sample map[string]string
	for sc.Scan() {
		var r row
		if err := json.Unmarshal(sc.Bytes(), &r); err != nil {
			fmt.Fprintln(os.Stderr, "row:", err)
			return 2
		}
		n++
		dir, _ := os.MkdirTemp(args[2], "inv")
		os.WriteFile(path.Join(dir, "s.mro"), []byte(r.Src), 0644)
		add := func(kind, detail, text string) {
			viols = append(viols, Violation{r.Id, kind, detail, text})
		}
		func() {
			defer os.RemoveAll(dir)
			defer func() {
				if x := recover(); x != nil {
					add("panic", fmt.Sprint(x), "")
				}
			}()
			inv := core.InvocationData{Call: "S", Include: "s.mro", Args: core.LazyArgumentMap{}, SplitArgs: r.Split}
			isSplit := map[string]bool{}
			for _, s := range r.Split {
				isSplit[s] = true
			}
			for k, v := range r.Args {
				if isSplit[k] {
					inv.Args[k] = json.RawMessage(`{"split":` + v + `}`)
				} else {
					inv.Args[k] = json.RawMessage(v)
				}
			}
			text, err := inv.BuildCallSource([]string{dir})
			if err != nil {
				add("data-to-call-fails", err.Error(), "")
				return
			}
			counts["calls_built"]++
			if sample == nil {
				sample = map[string]string{"row": r.Id, "call_text": text}
			}
			// the text is a compiling call
			var p syntax.Parser
			if _, _, _, err := p.ParseSourceBytes([]byte(text), path.Join(dir, "call.mro"), []string{dir}, false); err != nil {
				if emptySplitRe.MatchString(text) {
					add("split-of-empty-or-null-literal", err.Error(), text)
				} else {
					add("call-does-not-compile", err.Error(), text)
				}
				return
			}
			// the same data without the name of the file that defines the stage (mrg then looks
			// the stage up in every file on the path): the call must compile as well
			{
				inv0 := inv
				inv0.Include = ""
				if text0, err := inv0.BuildCallSource([]string{dir}); err != nil {
					add("data-to-call-fails-without-include", err.Error(), "")
				} else {
					var p0 syntax.Parser
					if _, _, _, err := p0.ParseSourceBytes([]byte(text0), path.Join(dir, "call0.mro"), []string{dir}, false); err != nil && !emptySplitRe.MatchString(text0) {
						add("call-does-not-compile-without-include", err.Error(), text0)
					}
					counts["calls_built_without_include"]++
				}
			}
			// its bindings are what the model says
			ast, err := p.UncheckedParse([]byte(text), path.Join(dir, "call.mro"))
			if err != nil || ast.Call == nil {
				add("call-does-not-parse", fmt.Sprint(err), text)
				return
			}
			var want []struct {
				N string          `json:"n"`
				E json.RawMessage `json:"e"`
			}
			json.Unmarshal(r.Call, &want)
			got := absast.Abstract(ast)["call"].(absast.M)["binds"].([]interface{})
			if len(got) != len(want) {
				add("bindings-differ", fmt.Sprintf("%d bindings, expected %d", len(got), len(want)), text)
			} else {
				for i := range want {
					g := got[i].(absast.M)
					if g["n"] != want[i].N {
						add("bindings-differ", fmt.Sprintf("binding %d is %v, expected %s", i, g["n"], want[i].N), text)
					} else if a, b := js(g["e"]), js(expExp(want[i].E)); a != b {
						// whether an object is written as a struct or as a map literal does
						// not change the value: a difference of the model, not a violation
						if strings.ReplaceAll(a, `"kind":"struct"`, `"kind":"map"`) == strings.ReplaceAll(b, `"kind":"struct"`, `"kind":"map"`) {
							counts["literal_kind_differs"]++
						} else {
							add("bindings-differ", fmt.Sprintf("%s: got %s expected %s", want[i].N, a, b), text)
						}
					}
				}
			}
			if (ast.Call.CallMode() != syntax.ModeSingleCall || ast.Call.Mapping != nil) != (strings.Contains(text, "map call")) {
				add("map-keyword", "mapped status and the `map call` keyword disagree", text)
			}
			// call -> data
			inv2, err := core.InvocationDataFromSource([]byte(text), []string{dir})
			if err != nil {
				add("call-to-data-fails", err.Error(), text)
				return
			}
			if inv2.Call != "S" {
				add("data-differs", "call name "+inv2.Call, text)
			}
			for _, name := range r.Names {
				orig := "null"
				if v, ok := inv.Args[name]; ok {
					orig = string(v)
				}
				a, errA := canonJSON([]byte(orig))
				b, errB := canonJSON(inv2.Args[name])
				if errA != nil || errB != nil || a != b {
					add("data-differs", fmt.Sprintf("argument %s: %s became %s", name, orig, string(inv2.Args[name])), text)
				}
			}
			wantSplit := []string{}
			for _, s := range r.Split {
				if v, ok := r.Args[s]; ok && v != "null" {
					wantSplit = append(wantSplit, s)
				}
			}
			gotSplit := append([]string{}, inv2.SplitArgs...)
			sort.Strings(wantSplit)
			sort.Strings(gotSplit)
			if strings.Join(wantSplit, ",") != strings.Join(gotSplit, ",") {
				add("data-differs", fmt.Sprintf("split arguments %v became %v", wantSplit, gotSplit), text)
			}
			// the same call written with an alias and a second include in front: the data
			// names the callable and the file that declares it, with the same arguments
			os.WriteFile(path.Join(dir, "types.mro"), []byte("filetype zzextra;\n"), 0644)
			text3 := "@include \"types.mro\"\n" + strings.Replace(text, "call S(", "call S as ALIAS(", 1)
			if inv3, err := core.InvocationDataFromSource([]byte(text3), []string{dir}); err != nil {
				add("call-to-data-fails", "aliased call with two includes: "+err.Error(), text3)
			} else {
				if inv3.Call != "S" || inv3.Include != "s.mro" {
					add("data-differs", fmt.Sprintf("aliased call with two includes: call %q include %q, expected S / s.mro", inv3.Call, inv3.Include), text3)
				}
				for _, name := range r.Names {
					a, _ := canonJSON(inv2.Args[name])
					b, _ := canonJSON(inv3.Args[name])
					if a != b {
						add("data-differs", fmt.Sprintf("aliased call: argument %s is %s, unaliased %s", name, string(inv3.Args[name]), string(inv2.Args[name])), text3)
					}
				}
				if t4, err := inv3.BuildCallSource([]string{dir}); err != nil {
					add("data-to-call-fails", "from the aliased call: "+err.Error(), text3)
				} else if t4 != text {
					add("call-differs", "the call rebuilt from the aliased form differs: "+t4, text3)
				}
			}
			// and again
			text2, err := inv2.BuildCallSource([]string{dir})
			if err != nil {
				add("data-to-call-fails", "second pass: "+err.Error(), text)
			} else if text2 != text {
				add("call-differs", "second generation differs: "+text2, text)
			}
		}()
	}
	rep := map[string]interface{}{"rows": n, "violations": viols, "counts": counts, "sample": sample}
	b, _ := json.Marshal(rep)
	os.WriteFile(args[1], b, 0644)
	return 0
}
